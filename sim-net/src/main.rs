//! E1 net-sim: the real aggregator (state machine, certifier, multi-signer, epoch service, signer
//! registration, repositories on file-backed SQLite, HTTP routes), signers, a verifying client
//! and an adversarial peer in one process under a seeded scheduler with fault injection.
//! Serves C02, C06, C14, C15, C16, C20.
mod agg;
mod chain;
mod db;
mod driver;
mod oracle;
mod parties;
mod signer;
mod world;

use serde_json::{Value, json};
use sim_core::batch::{self, Engine, Plan, RunCtx, RunReport, Tier, Violation};
use sim_core::{Fingerprint, ddmin::ddmin};

use driver::Driver;
use oracle::Oracle;
use world::{Event, Scenario, World};

pub struct Outcome {
    pub trace: Vec<Event>,
    pub found: Vec<oracle::Found>,
    pub fingerprint: u64,
    pub digest: u64,
    pub counters: std::collections::BTreeMap<String, u64>,
    pub states: Vec<u64>,
    pub nontrivial: bool,
    pub log: Vec<String>,
    /// (step, write statements of the aggregator during that step) when recording
    pub statements_by_step: Vec<(usize, Vec<String>)>,
    /// aggregate key per epoch as found in certificates / published signer lists (C06)
    pub avk_by_epoch: std::collections::BTreeMap<u64, String>,
    pub registration_acks: Vec<(u32, u16, usize)>,
    /// violations attributed to a known finding, with the trace length at which each was seen
    pub known_hits: Vec<(oracle::KnownHit, usize)>,
}

/// Execute a scenario: either draw events from the seeded driver or feed a recorded trace.
pub fn execute(sc: &Scenario, replay: Option<&[Event]>, keep_log: bool) -> Outcome {
    execute_with(sc, replay, keep_log, &ExecOptions::default())
}

#[derive(Default, Clone)]
pub struct ExecOptions {
    /// record the aggregator's write statements per event (C15 baseline)
    pub record_statements: bool,
    /// after the trace: run the quiescence script (no more faults) and evaluate bounded liveness
    pub quiesce: bool,
    /// after a replayed prefix: let the seeded driver continue for this many events
    pub continue_steps: usize,
    pub continue_salt: u64,
    /// counterfactual for the known finding C16-dmq-dedup-ignores-sender: no deduplicating DMQ
    /// client, no attribution
    pub dmq_without_dedup: bool,
}

pub fn execute_with(sc: &Scenario, replay: Option<&[Event]>, keep_log: bool, opts: &ExecOptions) -> Outcome {
    let mut w = World::new(sc.clone());
    w.db_fault.lock().unwrap().record = opts.record_statements;
    w.install_db_hook();
    let mut oracle = Oracle::new(&sc.property);
    if opts.dmq_without_dedup {
        w.agg.settings.dmq_dedup = false;
    }
    let mut known_hits: Vec<(oracle::KnownHit, usize)> = vec![];
    let mut trace: Vec<Event> = vec![];
    let mut log: Vec<String> = vec![];
    let mut fp = Fingerprint::new();
    let mut digest = Fingerprint::new();
    if let Err(e) = w.start_aggregator() {
        oracle.found.push(oracle::Found { clause: "harness".into(), detail: format!("aggregator does not start: {e:#}"), step: 0 });
    }
    let mut step_one = |w: &mut World, oracle: &mut Oracle, ev: Event, trace: &mut Vec<Event>, log: &mut Vec<String>| -> bool {
        if std::env::var_os("VERIF_LOG_STEPS").is_some() {
            eprintln!("STEP {:>4} {:?}", w.step + 1, ev);
        }
        let applied = w.apply(&ev);
        if std::env::var_os("VERIF_LOG_STEPS").is_some() {
            eprintln!("     -> enabled={} {}", applied.enabled, applied.note);
        }
        if applied.enabled {
            fp.add(ev.kind());
            digest.add(ev.kind()).add(&applied.note);
            if keep_log {
                log.push(format!("{:>4} {:<16} {}", w.step, ev.kind(), applied.note));
            }
            trace.push(ev);
            oracle.check(w);
            while known_hits.len() < oracle.known_hits.len() {
                known_hits.push((oracle.known_hits[known_hits.len()].clone(), trace.len()));
            }
        }
        oracle.found.is_empty()
    };
    match replay {
        Some(events) => {
            if sc.property == "C20"
                && let Err(e) = w.spawn_signer_nodes()
            {
                oracle.found.push(oracle::Found { clause: "harness".into(), detail: format!("signer node does not start: {e:#}"), step: 0 });
            }
            for ev in events {
                if !step_one(&mut w, &mut oracle, ev.clone(), &mut trace, &mut log) {
                    break;
                }
            }
        }
        None => {
            let mut driver = Driver::new(sc);
            let mut ok = true;
            let script = if sc.property == "C20" {
                if let Err(e) = w.spawn_signer_nodes() {
                    oracle.found.push(oracle::Found { clause: "harness".into(), detail: format!("signer node does not start: {e:#}"), step: 0 });
                }
                driver.bootstrap_c20(sc)
            } else {
                driver.bootstrap(sc)
            };
            for ev in script {
                if !step_one(&mut w, &mut oracle, ev, &mut trace, &mut log) {
                    ok = false;
                    break;
                }
            }
            w.genesis_done = true;
            let mut n = 0;
            while ok && n < sc.steps {
                n += 1;
                let ev = driver.next(&w);
                ok = step_one(&mut w, &mut oracle, ev, &mut trace, &mut log);
            }
        }
    }
    if opts.continue_steps > 0 && replay.is_some() && oracle.found.is_empty() {
        let mut driver = Driver::continuation(sc, opts.continue_salt);
        w.genesis_done = true;
        for _ in 0..opts.continue_steps {
            let ev = driver.next(&w);
            if !step_one(&mut w, &mut oracle, ev, &mut trace, &mut log) {
                break;
            }
        }
    }
    if opts.quiesce && oracle.found.is_empty() {
        if sc.property == "C20" {
            let mut q = driver::QuiescerC20::new();
            while let Some(ev) = q.next(&w) {
                if !step_one(&mut w, &mut oracle, ev, &mut trace, &mut log) {
                    break;
                }
            }
        } else {
            let mut q = driver::Quiescer::new(sc);
            while let Some(ev) = q.next(&w) {
                if !step_one(&mut w, &mut oracle, ev, &mut trace, &mut log) {
                    break;
                }
            }
        }
    }
    if oracle.found.is_empty() {
        oracle.finish(&mut w);
    }
    let statements_by_step = w.statements_by_step.clone();
    // end state summary (never hashes or timestamps)
    if let Some(db) = w.db() {
        let certs = db.certificates();
        let mut labels: Vec<String> =
            certs.iter().map(|c| c.entity.as_ref().map(|e| e.label()).unwrap_or(format!("genesis({})", c.epoch))).collect();
        labels.sort();
        for l in &labels {
            digest.add(l);
        }
        digest.add_u64(db.signed_entities().len() as u64);
        digest.add_u64(db.single_signatures().len() as u64);
    }
    let mut counters = w.counters.clone();
    for (k, v) in &oracle.probes {
        *counters.entry(format!("probe_{k}")).or_default() += v;
    }
    counters.insert("sim_events".into(), trace.len() as u64);
    counters.insert("sim_epochs".into(), w.epoch - sc.start_epoch);
    let sealed = oracle.certs.iter().filter(|c| !c.is_genesis).count() as u64;
    counters.insert("sim_certificates".into(), sealed);
    let faults_fired: u64 = counters.iter().filter(|(k, _)| k.starts_with("fault_")).map(|(_, v)| *v).sum();
    for (k, v) in counters.iter().filter(|(k, _)| k.starts_with("fault_")) {
        if *v > 0 {
            fp.add(k);
        }
    }
    let nontrivial = sealed > 0 && (!sc.faults.any() || faults_fired > 0);
    for f in &oracle.found {
        digest.add(&f.clause);
    }
    Outcome {
        trace,
        found: oracle.found.clone(),
        fingerprint: fp.value(),
        digest: digest.value(),
        counters,
        states: oracle.states.iter().copied().collect(),
        nontrivial,
        log,
        statements_by_step,
        avk_by_epoch: oracle.avk_by_epoch.clone(),
        registration_acks: w.deliveries.iter().filter(|d| matches!(d.msg.kind, world::MsgKind::Registration { .. })).map(|d| (d.msg.id, d.status, d.step)).collect(),
        known_hits,
    }
}

/// C15: fault enumeration. A fault-free baseline history is recorded with the aggregator's write
/// statements per event; then the same history is re-run once per chosen crash point ("stop
/// before write statement j of event i": that statement and every later one fail, the node is
/// restarted on its directory right after the event), followed by the quiescence script and the
/// bounded-liveness verdict. Transient variants make the statement fail once without a crash.
fn run_c15(ctx: &RunCtx) -> RunReport {
    let thorough = ctx.tier == Tier::Thorough;
    let mut sc = driver::generate_scenario("C15", ctx.seed, ctx.run, thorough);
    // baseline is fault-free, quorum comfortably reachable, at least one extra entity type
    sc.faults = world::Faults::default();
    sc.k = ((sc.m as f64 * sc.phi_f * 0.3).ceil() as u64).clamp(1, sc.m);
    sc.n_parties = sc.n_parties.max(2);
    if sc.entity_types.is_empty() {
        sc.entity_types.push("CDB".into());
    }
    sc.steps = sc.steps.min(if thorough { 220 } else { 150 });
    let mut report = RunReport::new(ctx.run);
    let record = ExecOptions { record_statements: true, quiesce: false, ..Default::default() };
    let base = execute_with(&sc, None, false, &record);
    if let Some(f) = base.found.first() {
        if f.clause == "harness" {
            eprintln!("HARNESS-ERROR: run {}: {}", ctx.run, f.detail);
            std::process::exit(2);
        }
        // the fault-free baseline itself violates a C15 clause
        report.violations.push(Violation { property: "C15".into(), clause: f.clause.clone(), detail: format!("fault-free baseline, step {}: {}", f.step, f.detail), finding: None });
        report.replay = Some(json!({"scenario": sc, "trace": base.trace, "quiesce": false}));
        return report;
    }
    // candidate crash points: (index in trace, j-th write statement of that event, label)
    // differential precondition: the same history WITHOUT any stop must itself pass the quiescence
    // script, otherwise a stalled round later on says nothing about crashes
    {
        let live = execute_with(&sc, Some(&base.trace), false, &ExecOptions { quiesce: true, ..Default::default() });
        if live.found.iter().any(|f| f.clause == "no-progress-after-faults") {
            report.hit("c15_baseline_not_live_run_skipped");
            report.fingerprint = base.fingerprint;
            report.digest = base.digest;
            report.counters.extend(base.counters.clone());
            return report;
        }
        if let Some(f) = live.found.first() {
            report.violations.push(Violation { property: "C15".into(), clause: f.clause.clone(), detail: format!("fault-free baseline + quiescence, step {}: {}", f.step, f.detail), finding: None });
            report.replay = Some(json!({"scenario": sc, "trace": live.trace, "quiesce": false}));
            return report;
        }
    }
    // only events after the operator's bootstrap script, and only the aggregator's own operations
    // (ticks, background artifact task, signature deliveries): these contain every persistence
    // step of certificate creation, artifact production and buffered-signature hand-over
    let bootstrap_len = 4 * sc.n_parties + 11;
    let mut points: Vec<(usize, u64, String)> = vec![];
    for (step, labels) in &base.statements_by_step {
        let idx = *step - 1;
        if idx < bootstrap_len || idx >= base.trace.len() {
            continue;
        }
        let relevant = match &base.trace[idx] {
            Event::Tick | Event::Background { .. } => true,
            Event::Deliver { id, .. } => base.trace.iter().any(|e| matches!(e, Event::Sign { id: sid, .. } if sid == id)),
            _ => false,
        };
        if !relevant {
            continue;
        }
        for (j, l) in labels.iter().enumerate() {
            points.push((idx, j as u64 + 1, l.clone()));
        }
    }
    let mut rng = sim_core::Rng::for_run(ctx.seed, "c15-points", ctx.run);
    let interesting = |l: &str| {
        ["certificate", "open_message", "signed_entity", "single_signature", "buffered_single_signature", "transaction"].iter().any(|t| l.contains(t))
    };
    let mut chosen: Vec<(usize, u64, String, bool)> = vec![];
    let mut by_label: std::collections::BTreeMap<String, Vec<usize>> = Default::default();
    for (i, p) in points.iter().enumerate() {
        if interesting(&p.2) {
            by_label.entry(p.2.clone()).or_default().push(i);
        }
    }
    for (_, idxs) in &by_label {
        let mut picks = vec![idxs[0]];
        if idxs.len() > 1 {
            picks.push(idxs[1 + rng.index(idxs.len() - 1)]);
        }
        if thorough {
            for _ in 0..6 {
                picks.push(*rng.pick(idxs));
            }
        }
        picks.sort_unstable();
        picks.dedup();
        for i in picks {
            let p = &points[i];
            chosen.push((p.0, p.1, p.2.clone(), true));
            if rng.chance(0.35) {
                chosen.push((p.0, p.1, p.2.clone(), false));
            }
        }
    }
    // a few points anywhere (epoch initialisation, registration ...)
    for _ in 0..(if thorough { 12 } else { 4 }) {
        if points.is_empty() {
            break;
        }
        let p = rng.pick(&points).clone();
        chosen.push((p.0, p.1, p.2, rng.chance(0.7)));
    }
    report.counters = base.counters.clone();
    report.count("c15_baseline_write_statements", points.len() as u64);
    report.count("c15_distinct_statement_labels", by_label.len() as u64);
    let mut fp = Fingerprint::new();
    fp.add_u64(base.fingerprint);
    let mut digest = Fingerprint::new();
    digest.add_u64(base.digest);
    let mut states: std::collections::BTreeSet<u64> = base.states.iter().copied().collect();
    let mut variants = 0u64;
    let mut sample_variant = None;
    // optional second crash later in the same history (repeated stops)
    for (at, j, label, crash) in chosen {
        // the history up to and including the interrupted event, then the seeded driver goes on
        // (fault-free), then quiescence
        let mut trace: Vec<Event> = base.trace[..at].to_vec();
        trace.push(Event::ArmDbFault { statement: j, crash });
        trace.push(base.trace[at].clone());
        let opts = ExecOptions {
            record_statements: false,
            quiesce: true,
            continue_steps: 40 + rng.index(60),
            continue_salt: rng.next_u64(),
            dmq_without_dedup: false,
        };
        // repeated stops: a second crash shortly after the restart
        if rng.chance(0.25) {
            trace.push(Event::ArmDbFault { statement: 1 + rng.below(6), crash: true });
            trace.push(Event::Tick);
            report.hit("c15_variants_with_two_stops");
        }
        let out = execute_with(&sc, Some(&trace), false, &opts);
        variants += 1;
        report.hit(if crash { "c15_crash_variants" } else { "c15_transient_error_variants" });
        report.hit(&format!("crashpoint {label}"));
        for (k, v) in &out.counters {
            if k.starts_with("fault_") || k.starts_with("probe_") {
                report.count(k, *v);
            }
        }
        fp.add(&label).add_u64(out.fingerprint);
        digest.add_u64(out.digest);
        states.extend(out.states.iter().copied());
        if sample_variant.is_none() {
            sample_variant = Some(json!({"crash_before": label, "event_index": at, "statement": j, "crash": crash}));
        }
        if let Some(first) = out.found.first() {
            if first.clause == "harness" {
                eprintln!("HARNESS-ERROR: run {}: {}", ctx.run, first.detail);
                std::process::exit(2);
            }
            // the executed trace (with the quiescence script) is the replay
            let full = execute_with(&sc, Some(&out.trace), true, &ExecOptions::default());
            let reproduced = full.found.iter().any(|f| f.clause == first.clause);
            let (trace, log, found) = if reproduced {
                (out.trace.clone(), full.log, full.found)
            } else {
                (trace.clone(), vec![], out.found.clone())
            };
            for f in &found {
                report.violations.push(Violation {
                    property: "C15".into(),
                    clause: f.clause.clone(),
                    detail: format!("stop before `{label}` (event {at}, {}): step {}: {}", if crash { "crash + restart" } else { "transient error" }, f.step, f.detail),
                    finding: None,
                });
            }
            report.replay = Some(json!({"scenario": sc, "trace": trace, "log": log, "quiesce": !reproduced}));
            break;
        }
    }
    report.count("c15_variants", variants);
    report.fingerprint = fp.value();
    report.digest = digest.value();
    report.states = states.into_iter().collect();
    report.nontrivial = variants > 0 && report.counters.get("fault_crash_at_statement").copied().unwrap_or(0) > 0;
    if ctx.want_sample {
        report.sample = Some(json!({"run": ctx.run, "scenario": sc, "baseline_events": base.trace.len(), "write_statements": points.len(), "variants": variants, "first_variant": sample_variant}));
    }
    report
}

struct NetEngine;

const PROPERTIES: [&str; 6] = ["C02", "C06", "C14", "C15", "C16", "C20"];

fn real_components() -> Vec<String> {
    [
        "mithril-aggregator: AggregatorRuntime state machine, AggregatorRunner, MithrilCertifierService + BufferedCertifierService, MultiSignerImpl, MithrilEpochService, MithrilSignerRegistrationLeader + verifier (opcert / KES checks), all repositories and SQL migrations on file-backed SQLite (WAL), warp HTTP routes (register-signer, register-signatures, epoch-settings, certificate/{hash}, certificates, artifact routes), message service, signed-entity service + MSD / CSD / CardanoDatabase artifact builders, signable builders, upkeep",
        "mithril-common: protocol::{SignerBuilder, SingleSigner, MultiSigner}, certificate chain verifier, Certificate / messages JSON codecs, KES / opcert verification",
        "mithril-stm: key registration, signing, lottery, aggregation, verification (BLS via blst)",
        "mithril-client: CertificateClient::verify_chain + MithrilCertificateVerifier (the judge named by C14 / C15)",
        "mithril-persistence: connection builder, migrations, query layer (with the cfg(mithril_verif) statement hook)",
        "message-queue ingress of the aggregator: mithril-dmq DmqConsumerClientDeduplicator, SignatureConsumerDmq, SequentialSignatureProcessor (wired as create_signature_processor wires them) in front of the certifier",
        "CardanoTransactions: the aggregator's (and, for C20, each signer's) real chain data importer, block range root computation, signable builder, prover and artifact builder over the block scanner double",
        "C20: real mithril-signer nodes - StateMachine, SignerRunner, SignerCertifierService, MithrilSingleSigner, MithrilEpochService, repositories on file-backed SQLite, signable builders, upkeep - assembled by hand around the simulated link (as the repository's state-machine tester assembles them)",
        "operator actions: restart, restart with other protocol parameters in the configuration (real ServeCommandConfiguration -> DependenciesBuilder graph rebuilt over the node's directory)",
    ]
    .iter()
    .map(|s| s.to_string())
    .collect()
}

fn stub_components() -> Vec<String> {
    [
        "Cardano node: SimChainObserver / SimImmutableObserver over the simulated chain (per-node lagging views)",
        "immutable digester (SimDigester: Merkle tree is a function of the beacon), FakeSnapshotter, DumbUploader, EraReaderDummyAdapter; block scanner (SimBlockScanner: block n in slot 10 n with one transaction, no forks - forks and the real chain reader are the import engine's subject)",
        "HTTP transport: requests are in-process calls into the real warp filter (no socket); the simulated network owns delivery, loss, duplication, reordering, delay and corruption",
        "signers (all properties but C20) are light actors built on the repository's ProtocolInitializer / SignerBuilder / SingleSigner: they ask the aggregator for the registration parameters and sign its open message; genesis bootstrap is performed by the harness with the repository's CertificateGenesisProducer",
        "DMQ node and Pallas DMQ client: a simulated node hands (payload, authenticated pool id) pairs, singly or in batches, to the repository's consumer chain; the signer-side publishers (HTTP / DMQ clients, retry / delay decorators, DependenciesBuilder::build of the signer) are replaced by the simulated link",
        "cloud uploaders, follower aggregator synchronisation: not simulated",
    ]
    .iter()
    .map(|s| s.to_string())
    .collect()
}

impl Engine for NetEngine {
    fn name(&self) -> &'static str {
        "net-sim"
    }

    fn plan(&self, property: &str, tier: Tier) -> Option<Plan> {
        if !PROPERTIES.contains(&property) {
            return None;
        }
        let runs = match (property, tier) {
            ("C15", Tier::Quick) => 32,
            ("C15", Tier::Thorough) => 2_000,
            ("C20", Tier::Quick) => 200,
            (_, Tier::Quick) => 480,
            (_, Tier::Thorough) => 24_000,
        };
        Some(Plan {
            runs,
            level: if property == "C15" { "fault_enumeration" } else { "exploration" },
            rule: "one run = one swarm-generated scenario (1-8 parties, stake profile, (k, m, phi_f) with quorum sometimes barely reachable, entity types, enabled fault kinds with log-uniform rates, ~20% fault-free) executed as a seeded schedule of concrete events (tick, background poll, epoch / immutable / block progress, per-node chain-view sync between or inside a cycle, register, sign, deliver through HTTP or the message queue (singly or in batches) / duplicate / damage / drop, expire, restart, restart with other protocol parameters, forged and wrong-epoch-key submissions, DB fault; for C20 cycles of real signer nodes under link policies); invariants after every event; one simulated epoch stands for five days of mainnet (counter sim_epochs = simulated time covered). A run is non-trivial iff at least one non-genesis certificate was sealed and, in fault-injecting scenarios, at least one fault kind fired; distinct = distinct hash of the sequence of executed event kinds plus the set of fault kinds that fired.".into(),
            assumptions: vec![
                "a crash is a process kill: SQLite-committed state and files survive, nothing else; durability below SQLite's commit is not modelled".into(),
                "one node runs at a time (single driven runtime); background tasks advance only in explicit poll events".into(),
                "wall-clock timestamps inside certificates are real; nothing in fingerprints, digests or control flow depends on them".into(),
            ],
            real_components: real_components(),
            stub_components: stub_components(),
            worker_death_is_violation: false,
            time_cap_s: match tier {
                Tier::Quick => 1200,
                Tier::Thorough => 5 * 3600,
            },
        })
    }

    fn run(&self, ctx: &RunCtx) -> RunReport {
        if ctx.property == "C15" {
            return run_c15(ctx);
        }
        let sc = driver::generate_scenario(&ctx.property, ctx.seed, ctx.run, ctx.tier == Tier::Thorough);
        let out = if ctx.property == "C20" {
            execute_with(&sc, None, false, &ExecOptions { quiesce: true, ..Default::default() })
        } else {
            execute(&sc, None, false)
        };
        let mut out = out;
        // C06 (ii): paired run — the same history with the registrations of every epoch arriving
        // in the opposite order must give bit-identical aggregate keys for every epoch
        if ctx.property == "C06" && out.found.is_empty() {
            // index of the Register event that created each registration message
            let created_at: std::collections::BTreeMap<u32, usize> = out
                .trace
                .iter()
                .enumerate()
                .filter_map(|(i, e)| if let Event::Register { id, .. } = e { Some((*id, i)) } else { None })
                .collect();
            let mut paired = out.trace.clone();
            // groups of registration deliveries of one epoch whose messages all exist before the
            // group's first slot: within a group the arrival order is reversed
            let mut group: Vec<usize> = vec![];
            let mut flush = |group: &mut Vec<usize>, paired: &mut Vec<Event>| {
                let evs: Vec<Event> = group.iter().rev().map(|i| paired[*i].clone()).collect();
                for (slot, ev) in group.iter().zip(evs) {
                    paired[*slot] = ev;
                }
                group.clear();
            };
            for i in 0..out.trace.len() {
                match &out.trace[i] {
                    Event::Deliver { id, keep: false, damage: None } if created_at.contains_key(id) => {
                        if let Some(first) = group.first()
                            && created_at[id] > *first
                        {
                            flush(&mut group, &mut paired);
                        }
                        group.push(i);
                    }
                    // a tick may rotate the registration round: arrival relative to it matters by
                    // design, so a group never spans one
                    Event::Epoch { .. } | Event::Restart | Event::Reconfigure { .. } | Event::Genesis | Event::Tick | Event::SyncView => flush(&mut group, &mut paired),
                    _ => {}
                }
            }
            flush(&mut group, &mut paired);
            if paired != out.trace {
                let second = execute(&sc, Some(&paired), false);
                out.counters.insert("c06_paired_runs".into(), 1);
                let mut compared = 0u64;
                for (epoch, avk) in &out.avk_by_epoch {
                    if let Some(other) = second.avk_by_epoch.get(epoch) {
                        compared += 1;
                        if !Oracle::same_avk(avk, other) && std::env::var_os("VERIF_DEBUG_C06").is_some() {
                            eprintln!("DEBUG epoch {epoch}\n first  {}\n second {}", &avk[..avk.len().min(200)], &other[..other.len().min(200)]);
                            let diff: Vec<usize> = (0..out.trace.len().min(paired.len())).filter(|i| out.trace[*i] != paired[*i]).collect();
                            eprintln!("DEBUG differing slots {diff:?} len {} {}", out.trace.len(), second.trace.len());
                            eprintln!("DEBUG acks first  {:?}", out.registration_acks);
                            eprintln!("DEBUG acks second {:?}", second.registration_acks);
                        }
                        if !Oracle::same_avk(avk, other) {
                            out.found.push(oracle::Found {
                                clause: "avk-depends-on-arrival-order".into(),
                                detail: format!("epoch {epoch}: the same registrations arriving in the opposite order give another aggregate key"),
                                step: out.trace.len(),
                            });
                            break;
                        }
                    }
                }
                out.counters.insert("c06_paired_epochs_compared".into(), compared);
                if let Some(f) = second.found.first()
                    && out.found.is_empty()
                {
                    out.found.push(f.clone());
                    out.trace = paired.clone();
                }
            }
        }
        let mut report = RunReport::new(ctx.run);
        report.fingerprint = out.fingerprint;
        report.digest = out.digest;
        report.nontrivial = out.nontrivial;
        report.counters = out.counters.clone();
        report.states = out.states.clone();
        if let Some(first) = out.found.first() {
            if first.clause == "harness" {
                eprintln!("HARNESS-ERROR: run {}: {}", ctx.run, first.detail);
                std::process::exit(2);
            }
            // minimise: keep the scripted bootstrap, shrink the rest
            let clause = first.clause.clone();
            if clause == "avk-depends-on-arrival-order" {
                report.violations.push(Violation { property: ctx.property.clone(), clause, detail: first.detail.clone(), finding: None });
                report.replay = Some(json!({"scenario": sc, "trace": out.trace, "paired": true}));
                return report;
            }
            let prefix_len = if sc.property == "C20" { 10 * sc.n_parties + 11 } else { 2 + 2 * (2 * sc.n_parties) + 4 + 1 + 4 };
            let prefix_len = prefix_len.min(out.trace.len());
            let (prefix, rest) = out.trace.split_at(prefix_len);
            let prefix = prefix.to_vec();
            let minimal_rest = ddmin(
                rest.to_vec(),
                |cand| {
                    let mut t = prefix.clone();
                    t.extend_from_slice(cand);
                    execute(&sc, Some(&t), false).found.iter().any(|f| f.clause == clause)
                },
                48,
            );
            let mut minimal = prefix.clone();
            minimal.extend(minimal_rest);
            let check = execute(&sc, Some(&minimal), true);
            let (trace, log, found) = if check.found.iter().any(|f| f.clause == clause) {
                (minimal, check.log, check.found)
            } else {
                let full = execute(&sc, Some(&out.trace), true);
                (out.trace.clone(), full.log, full.found)
            };
            for f in &found {
                report.violations.push(Violation {
                    property: ctx.property.clone(),
                    clause: f.clause.clone(),
                    detail: format!("step {}: {}", f.step, f.detail),
                    finding: None,
                });
            }
            report.replay = Some(json!({
                "scenario": sc,
                "trace": trace,
                "original_trace_len": out.trace.len(),
                "log": log,
            }));
        }
        if out.found.is_empty() {
            known_hit_violations(&sc, &out, &mut report);
        }
        if ctx.want_sample {
            let kinds: Vec<&str> = out.trace.iter().map(|e| e.kind()).collect();
            report.sample = Some(json!({"run": ctx.run, "scenario": sc, "event_kinds": kinds}));
        }
        report
    }

    fn replay(&self, doc: &Value) -> RunReport {
        let sc: Scenario = serde_json::from_value(doc["scenario"].clone()).unwrap_or_else(|e| {
            eprintln!("HARNESS-ERROR: bad replay scenario: {e}");
            std::process::exit(2)
        });
        let trace: Vec<Event> = serde_json::from_value(doc["trace"].clone()).unwrap_or_else(|e| {
            eprintln!("HARNESS-ERROR: bad replay trace: {e}");
            std::process::exit(2)
        });
        if doc["paired"].as_bool().unwrap_or(false) {
            // two-run property: the trace and its registration-order mirror
            let ctx = RunCtx { property: sc.property.clone(), tier: Tier::Quick, seed: sc.seed, run: sc.run, want_sample: false };
            return self.run(&ctx);
        }
        let opts = ExecOptions { quiesce: doc["quiesce"].as_bool().unwrap_or(false), ..Default::default() };
        let out = execute_with(&sc, Some(&trace), true, &opts);
        if std::env::var_os("VERIF_SHOW_LOG").is_some() {
            for l in &out.log {
                println!("{l}");
            }
        }
        let mut report = RunReport::new(sc.run);
        for f in &out.found {
            report.violations.push(Violation {
                property: sc.property.clone(),
                clause: f.clause.clone(),
                detail: format!("step {}: {}", f.step, f.detail),
                finding: None,
            });
        }
        if out.found.is_empty() {
            known_hit_violations(&sc, &out, &mut report);
        }
        report
    }
}

/// C16, honest deliveries that were not recorded: the statement speaks of what other parties'
/// submissions do to a party's contribution, so each suspect is judged by counterfactual re-runs of
/// the trace up to it.
///  1. without the foreign material (every `Forge` event removed): if the delivery is still not
///     recorded, no other party caused it (e.g. a retransmission after a refused first delivery
///     is dropped by the message-queue deduplication) - counted, not judged;
///  2. if the trigger of the known finding C16-dmq-dedup-ignores-sender is present: without the
///     deduplicating client (and everything else kept); recorded there = that finding;
///  3. anything else is a violation.
fn known_hit_violations(sc: &Scenario, out: &Outcome, report: &mut RunReport) {
    for (hit, trace_len) in out.known_hits.iter().take(4) {
        let prefix = &out.trace[..(*trace_len).min(out.trace.len())];
        if !hit.foreign_copy_before {
            *report.counters.entry("probe_c16_unrecorded_without_foreign_material".into()).or_default() += 1;
            continue;
        }
        // what the party did to itself stays in the history: on the message queue the name on a
        // message is the sender's authenticated identity, so a forged message under this party's
        // name that only ever travels through the message queue was sent by this very party
        let through_http: std::collections::BTreeSet<u32> = prefix
            .iter()
            .filter_map(|e| if let Event::Deliver { id, .. } = e { Some(*id) } else { None })
            .collect();
        let own_doing = |e: &Event| matches!(e, Event::Forge { id, as_party, .. } if *as_party == hit.producer && !through_http.contains(id));
        let without_foreign: Vec<Event> = prefix
            .iter()
            .filter(|e| !matches!(e, Event::Forge { .. }) || own_doing(e))
            .map(|e| match e {
                Event::DeliverDmqBatch { ids, .. } => Event::DeliverDmqBatch { ids: ids.clone(), junk_at: vec![] },
                other => other.clone(),
            })
            .collect();
        let cf1 = execute_with(sc, Some(&without_foreign), false, &ExecOptions::default());
        if cf1.known_hits.iter().any(|(h, _)| h.msg_id == hit.msg_id && h.clause == hit.clause) {
            *report.counters.entry("probe_c16_unrecorded_also_without_foreign_material".into()).or_default() += 1;
            continue;
        }
        let mut finding = None;
        if hit.dedup_trigger {
            let cf2 = execute_with(sc, Some(prefix), false, &ExecOptions { dmq_without_dedup: true, ..Default::default() });
            if !cf2.known_hits.iter().any(|(h, _)| h.msg_id == hit.msg_id) {
                finding = Some(hit.finding.clone());
            }
        }
        report.violations.push(Violation {
            property: sc.property.clone(),
            clause: hit.clause.clone(),
            detail: format!("step {}: {} [recorded when the other parties' copies and messages are taken out of the history{}]", hit.step, hit.detail,
                if hit.dedup_trigger && finding.is_none() { "; still not recorded without the deduplicating client" } else { "" }),
            finding,
        });
        let check = execute(sc, Some(prefix), true);
        report.replay = Some(json!({
            "scenario": sc,
            "trace": prefix,
            "original_trace_len": out.trace.len(),
            "log": check.log,
        }));
        return;
    }
}

fn main() {
    // panics inside repository code are caught where the simulation expects them (route
    // handlers); keep the default hook quiet unless debugging
    if std::env::var_os("VERIF_LOG").is_none() && std::env::var_os("RUST_BACKTRACE").is_none() {
        std::panic::set_hook(Box::new(|info| {
            eprintln!("panic: {}", info.to_string().lines().next().unwrap_or(""));
        }));
    }
    // the repository's test fixtures write KES keys / operational certificates under
    // std::env::temp_dir(): give every process its own, inside the scratch root
    let tmp = sim_core::scratch::scratch_root().join(format!("tmp-{}", std::process::id()));
    let _ = std::fs::create_dir_all(&tmp);
    unsafe { std::env::set_var("TMPDIR", &tmp) };
    let code = std::panic::catch_unwind(|| batch::main(&NetEngine));
    let _ = std::fs::remove_dir_all(&tmp);
    if code.is_err() {
        std::process::exit(2);
    }
}
