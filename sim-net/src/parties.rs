//! Stake pool operators ("parties"): long-lived identity (cold key, operational certificate,
//! KES key — taken from the repository's precomputed test material) and one fresh STM key per
//! registration epoch, generated with the repository's `ProtocolInitializer::setup` from a
//! seed that is a function of (run seed, party, epoch).
use std::collections::BTreeMap;
use std::path::PathBuf;
use std::sync::Arc;

use mithril_common::crypto_helper::{
    KesEvolutions, KesPeriod, KesSigner, KesSignerStandard, ProtocolInitializer, ProtocolOpCert,
};
use mithril_common::entities::{
    Epoch, ProtocolParameters, Signer, SignerWithStake, SingleSignature,
};
use mithril_common::messages::{RegisterSignerMessage, TryToMessageAdapter};
use mithril_common::protocol::SignerBuilder;
use mithril_common::test::builder::MithrilFixtureBuilder;
use mithril_signer::ToRegisterSignerMessageAdapter;

/// rand_core 0.6 RNG (what mithril-stm wants) fed from our SplitMix64: deterministic per seed.
pub struct SeedRng(pub sim_core::Rng);

impl mithril_stm_rng::RngCore for SeedRng {
    fn next_u32(&mut self) -> u32 {
        self.0.next_u64() as u32
    }
    fn next_u64(&mut self) -> u64 {
        self.0.next_u64()
    }
    fn fill_bytes(&mut self, dest: &mut [u8]) {
        let b = self.0.bytes(dest.len());
        dest.copy_from_slice(&b);
    }
    fn try_fill_bytes(&mut self, dest: &mut [u8]) -> Result<(), mithril_stm_rng::Error> {
        self.fill_bytes(dest);
        Ok(())
    }
}
impl mithril_stm_rng::CryptoRng for SeedRng {}

/// re-export of the `rand_core` version used by mithril-common / mithril-stm
pub mod mithril_stm_rng {
    pub use rand_core::{CryptoRng, Error, RngCore};
}

#[derive(Clone)]
pub struct Party {
    pub index: usize,
    pub party_id: String,
    pub kes_secret_key_path: PathBuf,
    pub operational_certificate_path: PathBuf,
    pub operational_certificate: ProtocolOpCert,
}

/// Key material a party generated for one recording epoch.
#[derive(Clone)]
pub struct EpochKey {
    pub recording_epoch: u64,
    pub initializer: ProtocolInitializer,
    pub signer: Signer,
    pub stake: u64,
    /// the protocol parameters the party was given when it created this key
    pub parameters: ProtocolParameters,
}

pub fn make_parties(n: usize) -> Vec<Party> {
    // the fixture builder creates (or finds) kes.sk / opcert.cert of parties 0..n under TMPDIR
    let fixture = MithrilFixtureBuilder::default().with_signers(n).build();
    fixture
        .signers_fixture()
        .into_iter()
        .enumerate()
        .map(|(index, f)| Party {
            index,
            party_id: f.signer_with_stake.party_id.clone(),
            kes_secret_key_path: f.kes_secret_key_path.clone().expect("kes key path"),
            operational_certificate_path: f.operational_certificate_path.clone().expect("opcert path"),
            operational_certificate: f.signer_with_stake.operational_certificate.clone().expect("opcert"),
        })
        .collect()
}

impl Party {
    /// Fresh STM key for `recording_epoch` (the real signer does this once per epoch).
    pub fn generate_key(
        &self,
        run_seed: u64,
        recording_epoch: u64,
        stake: u64,
        parameters: &ProtocolParameters,
    ) -> EpochKey {
        let rng = sim_core::Rng::for_run(run_seed, &format!("stm-key-{}", self.index), recording_epoch);
        let kes_signer = Arc::new(KesSignerStandard::new(
            self.kes_secret_key_path.clone(),
            self.operational_certificate_path.clone(),
        )) as Arc<dyn KesSigner>;
        let initializer = ProtocolInitializer::setup(
            parameters.clone().into(),
            Some(kes_signer),
            Some(KesPeriod(0)),
            stake,
            &mut SeedRng(rng),
        )
        .expect("protocol initializer setup");
        let signer = Signer {
            party_id: self.party_id.clone(),
            verification_key_for_concatenation: initializer.verification_key_for_concatenation().into(),
            verification_key_signature_for_concatenation: initializer
                .verification_key_signature_for_concatenation(),
            operational_certificate: Some(self.operational_certificate.clone()),
            kes_evolutions: Some(KesEvolutions(0)),
        };
        EpochKey { recording_epoch, initializer, signer, stake, parameters: parameters.clone() }
    }
}

impl EpochKey {
    pub fn registration_message(&self) -> RegisterSignerMessage {
        ToRegisterSignerMessageAdapter::try_adapt((Epoch(self.recording_epoch), self.signer.clone()))
            .expect("register signer message")
    }

    pub fn signer_with_stake(&self) -> SignerWithStake {
        SignerWithStake::from_signer(self.signer.clone(), self.stake)
    }

    /// Sign `message` as a member of `registered` (the closed registration of the signing epoch).
    /// `None` when the party won no lottery.
    pub fn sign(
        &self,
        registered: &[SignerWithStake],
        parameters: &ProtocolParameters,
        message: &str,
    ) -> anyhow::Result<Option<SingleSignature>> {
        let builder = SignerBuilder::new(registered, parameters)?;
        let single_signer =
            builder.restore_signer_from_initializer(self.signer.party_id.clone(), self.initializer.clone())?;
        single_signer.sign(&message.to_string())
    }
}

/// Registered sets per recording epoch, as acknowledged by the aggregator (the model's `R_e`).
#[derive(Default, Clone)]
pub struct Registry {
    pub by_epoch: BTreeMap<u64, BTreeMap<String, EpochKey>>,
}
