//! The simulated Cardano chain and the per-node *views* of it.
//!
//! One global `SimChain` (epoch, immutable file number, block / slot, stake distribution per
//! epoch). Each node reads it through its own `ChainObserver` / `ImmutableFileObserver`
//! instance backed by a `ChainView` the scheduler updates explicitly — that is how lag
//! ("clock skew" between Mithril nodes: they disagree about tip, immutable number and, briefly,
//! epoch) is injected.
use std::collections::BTreeMap;
use std::ops::RangeInclusive;
use std::path::Path;
use std::sync::{Arc, Mutex};

use async_trait::async_trait;
use mithril_cardano_node_chain::chain_observer::{ChainObserver, ChainObserverError};
use mithril_cardano_node_chain::entities::{ChainAddress, TxDatum};
use mithril_cardano_node_internal_database::ImmutableFileObserver;
use mithril_cardano_node_internal_database::digesters::{
    ComputedImmutablesDigests, ImmutableDigester, ImmutableDigesterError,
};
use mithril_cardano_node_internal_database::test::double::DumbImmutableDigester;
use mithril_common::StdResult;
use mithril_common::crypto_helper::{KesPeriod, MKTree, MKTreeStoreInMemory};
use mithril_common::entities::{
    BlockNumber, CardanoDbBeacon, ChainPoint, Epoch, ImmutableFileNumber, SlotNumber,
    StakeDistribution, TimePoint,
};

/// What one node currently sees of the chain.
#[derive(Clone, Debug, PartialEq)]
pub struct ChainView {
    pub epoch: u64,
    pub immutable: u64,
    pub block: u64,
    /// stake distribution the node's cardano node reports now (the one of `epoch`)
    pub stakes: BTreeMap<String, u64>,
    /// the node's view is unavailable (cardano node down): every read fails
    pub down: bool,
    /// `(n, next)`: after `n` more reads through the observers the view becomes `next` — the
    /// chain moves on *inside* a cycle of the node, between two of its reads
    pub pending: Option<(u32, Box<ChainView>)>,
}

/// One read of the node's cardano node: counts down an armed mid-cycle change, then returns what
/// the node sees.
fn observe(view: &SharedView) -> ChainView {
    let mut v = view.lock().unwrap();
    if let Some((n, next)) = v.pending.take() {
        if n == 0 {
            *v = *next;
        } else {
            v.pending = Some((n - 1, next));
        }
    }
    v.clone()
}

impl ChainView {
    pub fn time_point(&self) -> TimePoint {
        TimePoint {
            epoch: Epoch(self.epoch),
            immutable_file_number: self.immutable,
            chain_point: ChainPoint {
                slot_number: SlotNumber(self.block * 10),
                block_number: BlockNumber(self.block),
                block_hash: format!("block_hash-{}", self.block),
            },
        }
    }
}

pub type SharedView = Arc<Mutex<ChainView>>;

pub struct SimChainObserver {
    pub view: SharedView,
}

fn down() -> ChainObserverError {
    ChainObserverError::General(anyhow::anyhow!("simulated cardano node is unavailable"))
}

#[async_trait]
impl ChainObserver for SimChainObserver {
    async fn get_current_datums(&self, _address: &ChainAddress) -> Result<Vec<TxDatum>, ChainObserverError> {
        Ok(vec![])
    }

    async fn get_current_era(&self) -> Result<Option<String>, ChainObserverError> {
        Ok(Some("Conway".to_string()))
    }

    async fn get_current_epoch(&self) -> Result<Option<Epoch>, ChainObserverError> {
        let v = observe(&self.view);
        if v.down {
            return Err(down());
        }
        Ok(Some(Epoch(v.epoch)))
    }

    async fn get_current_chain_point(&self) -> Result<Option<ChainPoint>, ChainObserverError> {
        let v = observe(&self.view);
        if v.down {
            return Err(down());
        }
        Ok(Some(v.time_point().chain_point))
    }

    async fn get_current_stake_distribution(&self) -> Result<Option<StakeDistribution>, ChainObserverError> {
        let v = observe(&self.view);
        if v.down {
            return Err(down());
        }
        Ok(Some(v.stakes.iter().map(|(k, s)| (k.clone(), *s)).collect()))
    }

    async fn get_current_kes_period(&self) -> Result<Option<KesPeriod>, ChainObserverError> {
        Ok(Some(KesPeriod(0)))
    }
}

pub struct SimImmutableObserver {
    pub view: SharedView,
}

#[async_trait]
impl ImmutableFileObserver for SimImmutableObserver {
    async fn get_last_immutable_number(&self) -> StdResult<ImmutableFileNumber> {
        let v = observe(&self.view);
        if v.down {
            anyhow::bail!("simulated cardano node is unavailable");
        }
        Ok(v.immutable)
    }
}

/// Digester double: the database "content" is a function of the beacon only, so every node
/// computes the same Merkle root for the same beacon (the real digester is the subject of the
/// digest / restore engines).
pub struct SimDigester {
    inner: DumbImmutableDigester,
}

impl Default for SimDigester {
    fn default() -> Self {
        SimDigester { inner: DumbImmutableDigester::default().with_digest("5e1f") }
    }
}

#[async_trait]
impl ImmutableDigester for SimDigester {
    async fn compute_digests_for_range(
        &self,
        dirpath: &Path,
        range: &RangeInclusive<ImmutableFileNumber>,
    ) -> Result<ComputedImmutablesDigests, ImmutableDigesterError> {
        self.inner.compute_digests_for_range(dirpath, range).await
    }

    async fn compute_merkle_tree(
        &self,
        _dirpath: &Path,
        beacon: &CardanoDbBeacon,
    ) -> Result<MKTree<MKTreeStoreInMemory>, ImmutableDigesterError> {
        let leaves: Vec<String> =
            (1..=beacon.immutable_file_number.max(1)).map(|i| format!("immutable-{i:05}")).collect();
        Ok(MKTree::new(&leaves).expect("merkle tree over simulated immutable digests"))
    }
}

/// Block scanner double: the chain is a function of the block number only (block `n` sits in slot
/// `10 n`, carries one transaction), every node that reads up to the same block number sees the
/// same blocks. Forks and the real chain reader / streamer are the import engine's subject.
pub struct SimBlockScanner {
    pub view: SharedView,
}

struct SimBlockStreamer {
    next: u64,
    end: u64,
    last: Option<mithril_cardano_node_chain::entities::RawCardanoPoint>,
}

#[async_trait]
impl mithril_cardano_node_chain::chain_scanner::BlockScanner for SimBlockScanner {
    async fn scan(
        &self,
        from: Option<mithril_cardano_node_chain::entities::RawCardanoPoint>,
        until: BlockNumber,
    ) -> StdResult<Box<dyn mithril_cardano_node_chain::chain_scanner::BlockStreamer>> {
        let (tip, down) = {
            let v = self.view.lock().unwrap();
            (v.block, v.down)
        };
        if down {
            anyhow::bail!("simulated cardano node is unavailable");
        }
        let next = from.as_ref().filter(|p| !p.is_origin()).map(|p| *p.slot_number / 10 + 1).unwrap_or(1);
        Ok(Box::new(SimBlockStreamer { next, end: (*until).min(tip), last: from }))
    }
}

#[async_trait]
impl mithril_cardano_node_chain::chain_scanner::BlockStreamer for SimBlockStreamer {
    async fn poll_next(&mut self) -> StdResult<Option<mithril_cardano_node_chain::chain_scanner::ChainScannedBlocks>> {
        use mithril_cardano_node_chain::entities::{RawCardanoPoint, ScannedBlock};
        if self.next > self.end {
            return Ok(None);
        }
        let upto = (self.next + 39).min(self.end);
        let blocks: Vec<ScannedBlock> = (self.next..=upto)
            .map(|n| ScannedBlock::new(format!("block-{n:08}").into_bytes(), BlockNumber(n), SlotNumber(n * 10), vec![hex_of(&format!("tx-{n:08}"))]))
            .collect();
        self.last = Some(RawCardanoPoint::new(SlotNumber(upto * 10), format!("block-{upto:08}").into_bytes()));
        self.next = upto + 1;
        Ok(Some(mithril_cardano_node_chain::chain_scanner::ChainScannedBlocks::RollForwards(blocks)))
    }

    fn last_polled_point(&self) -> Option<mithril_cardano_node_chain::entities::RawCardanoPoint> {
        self.last.clone()
    }
}

fn hex_of(s: &str) -> String {
    s.bytes().map(|b| format!("{b:02x}")).collect()
}
