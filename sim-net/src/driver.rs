//! Scenario generation (swarm style) and the seeded scheduler that picks the next event.
use sim_core::Rng;

use crate::world::{Damage, Event, Faults, ForgeKind, MsgKind, Scenario, World};

pub fn generate_scenario(property: &str, seed: u64, run: u64, thorough: bool) -> Scenario {
    let mut rng = Rng::for_run(seed, &format!("scenario-{property}"), run);
    let n_parties = rng.range(1, 6) as usize + if rng.chance(0.2) { 2 } else { 0 };
    // parameters: quorum reachable most of the time, sometimes barely
    let m = *rng.pick(&[10u64, 20, 30, 50]);
    let phi_f = *rng.pick(&[0.3, 0.5, 0.65, 0.8, 0.95]);
    // expected distinct wins when everybody signs ~ m * phi_f (all stake) ; pick k below that
    let expect = (m as f64 * phi_f).max(1.0);
    let k = match rng.weighted(&[5, 3, 2]) {
        0 => (expect * 0.3).ceil() as u64,
        1 => (expect * 0.6).ceil() as u64,
        _ => (expect * 0.85).ceil() as u64,
    }
    .clamp(1, m);
    let mut entity_types = vec![];
    if rng.chance(0.6) {
        entity_types.push("CSD".to_string());
    }
    if rng.chance(0.7) {
        entity_types.push("CDB".to_string());
    }
    // transactions (own sub-stream: older scenarios keep everything else)
    if Rng::for_run(seed, &format!("scenario-ctx-{property}"), run).chance(0.3) {
        entity_types.push("CTX".to_string());
    }
    if property != "C20" && Rng::for_run(seed, &format!("scenario-cbtx-{property}"), run).chance(0.15) {
        entity_types.push("CBTX".to_string());
    }
    let fault_free = rng.chance(0.2);
    let mut f = Faults::default();
    if !fault_free {
        let mut pickf = |rng: &mut Rng, p_enable: f64, lo: f64, hi: f64| -> f64 {
            if rng.chance(p_enable) { rng.log_uniform(lo, hi) } else { 0.0 }
        };
        f.drop = pickf(&mut rng, 0.5, 0.01, 0.2);
        f.dup = pickf(&mut rng, 0.5, 0.02, 0.3);
        f.restart = pickf(&mut rng, 0.5, 0.005, 0.06);
        f.expire = pickf(&mut rng, 0.4, 0.005, 0.05);
        f.lag = pickf(&mut rng, 0.5, 0.05, 0.6);
        f.epoch_jump = pickf(&mut rng, 0.3, 0.02, 0.25);
        f.partial_registration = pickf(&mut rng, 0.5, 0.05, 0.4);
        f.reregister = pickf(&mut rng, 0.4, 0.02, 0.2);
        f.early_sign = pickf(&mut rng, 0.4, 0.05, 0.4);
        f.stale_delivery = pickf(&mut rng, 0.5, 0.02, 0.3);
        f.chain_down = pickf(&mut rng, 0.2, 0.005, 0.04);
        match property {
            "C16" => {
                f.adversary = rng.log_uniform(0.05, 0.5);
            }
            "C02" => {
                f.dup = rng.log_uniform(0.1, 0.6);
                f.corrupt = pickf(&mut rng, 0.8, 0.05, 0.4);
            }
            "C14" => {
                f.corrupt = pickf(&mut rng, 0.4, 0.02, 0.2);
            }
            "C20" => {
                f = Faults::default();
                if !fault_free {
                    let mut pickf = |rng: &mut Rng, p_enable: f64, lo: f64, hi: f64| -> f64 {
                        if rng.chance(p_enable) { rng.log_uniform(lo, hi) } else { 0.0 }
                    };
                    f.chain_down = pickf(&mut rng, 0.5, 0.01, 0.06); // aggregator unreachable for a signer tick
                    f.stale_delivery = pickf(&mut rng, 0.5, 0.03, 0.3); // stale epoch settings
                    f.drop = pickf(&mut rng, 0.6, 0.05, 0.4); // registration lost / ack lost
                    f.dup = pickf(&mut rng, 0.7, 0.05, 0.5); // signature lost / ack lost / duplicated
                    f.restart = pickf(&mut rng, 0.6, 0.005, 0.05); // aggregator and signer restarts
                    f.lag = pickf(&mut rng, 0.5, 0.05, 0.6); // per-node chain view lag
                }
            }
            "C06" => {
                f.reregister = pickf(&mut rng, 0.7, 0.05, 0.3);
                f.dup = pickf(&mut rng, 0.7, 0.05, 0.4);
                f.partial_registration = pickf(&mut rng, 0.6, 0.05, 0.4);
                f.restart = pickf(&mut rng, 0.6, 0.01, 0.08);
                f.epoch_jump = 0.0;
            }
            _ => {}
        }
    }
    // operator re-configuration (own sub-stream: scenarios drawn before this fault existed keep
    // everything else)
    if !fault_free && matches!(property, "C14" | "C15" | "C16" | "C02" | "C20") {
        let mut r = Rng::for_run(seed, &format!("scenario-reconfig-{property}"), run);
        if r.chance(0.3) {
            f.reconfig = r.log_uniform(0.004, 0.03);
        }
        // operator error: another genesis key in the configuration, late in the run
        if matches!(property, "C14") && r.chance(0.12) {
            f.rotate_genesis = r.log_uniform(0.004, 0.02);
        }
        // the chain moves inside a node's cycle
        if r.chance(0.35) {
            f.mid_cycle = r.log_uniform(0.05, 0.5);
        }
        // some signatures travel through the message queue
        if matches!(property, "C14" | "C16" | "C02") && r.chance(if property == "C16" { 0.5 } else { 0.25 }) {
            f.dmq = r.log_uniform(0.1, 0.7);
        }
        // relabelled copies and wrong-epoch keys also in the safety runs of C14 / C02
        if matches!(property, "C14" | "C02") && r.chance(0.3) {
            f.adversary = r.log_uniform(0.02, 0.2);
        }
    }
    Scenario {
        property: property.to_string(),
        seed,
        run,
        n_parties,
        k,
        m,
        phi_f,
        entity_types,
        start_epoch: rng.range(1, 4),
        stake_profile: rng.pick(&["uniform", "geometric", "whale", "dust"]).to_string(),
        stakes_change: rng.chance(0.6),
        steps: if thorough { rng.range(150, 500) as usize } else { rng.range(120, 320) as usize },
        epochs: rng.range(3, 7),
        faults: f,
    }
}

/// Other protocol parameters for the operator's configuration file: mostly a small step from the
/// current ones (quorum stays reachable), sometimes a redraw.
pub fn reconfigure_event(rng: &mut Rng, w: &World) -> Event {
    let cur = w.agg.settings.protocol_parameters.clone();
    let (m, phi_f) = match rng.below(4) {
        0 => (*rng.pick(&[10u64, 20, 30, 50]), cur.phi_f),
        1 => (cur.m, *rng.pick(&[0.3, 0.5, 0.65, 0.8, 0.95])),
        2 => (cur.m, cur.phi_f),
        _ => (*rng.pick(&[10u64, 20, 30, 50]), *rng.pick(&[0.3, 0.5, 0.65, 0.8, 0.95])),
    };
    let expect = (m as f64 * phi_f).max(1.0);
    let mut k = ((expect * *rng.pick(&[0.3, 0.45, 0.6])).ceil() as u64).clamp(1, m);
    if k == cur.k && m == cur.m && phi_f == cur.phi_f {
        k = (k + 1).clamp(1, m);
    }
    Event::Reconfigure { k, m, phi_f }
}

/// The seeded scheduler: looks at the current global state and draws the next event.
pub struct Driver {
    pub rng: Rng,
    next_id: u32,
    /// events since the last chain epoch change
    since_epoch: usize,
    epochs_done: u64,
    epoch_len: usize,
    pending_arm: bool,
}

impl Driver {
    pub fn new(sc: &Scenario) -> Driver {
        let mut rng = Rng::for_run(sc.seed, &format!("driver-{}", sc.property), sc.run);
        let epoch_len = (sc.steps as u64 / (sc.epochs + 2)).max(12) as usize;
        let _ = rng.next_u64();
        Driver { rng, next_id: 0, since_epoch: 0, epochs_done: 0, epoch_len, pending_arm: false }
    }

    /// Scripted prefix: the operator's bootstrap (two epochs of registrations, then genesis).
    pub fn bootstrap(&mut self, sc: &Scenario) -> Vec<Event> {
        let mut ev = vec![Event::Tick, Event::Tick];
        for round in 0..2 {
            let mut order: Vec<usize> = (0..sc.n_parties).collect();
            self.rng.shuffle(&mut order);
            let mut ids = vec![];
            for party in order {
                let id = self.id();
                ev.push(Event::Register { id, party, new_key: false });
                ids.push(id);
            }
            self.rng.shuffle(&mut ids);
            for id in ids {
                ev.push(Event::Deliver { id, keep: false, damage: None });
            }
            if round == 0 {
                ev.extend([Event::Epoch { by: 1 }, Event::SyncView, Event::Tick, Event::Tick]);
            } else {
                ev.push(Event::Genesis);
                ev.extend([Event::Epoch { by: 1 }, Event::SyncView, Event::Tick, Event::Tick]);
            }
        }
        ev
    }

    /// Parties that intend to register during `epoch` (non-empty seeded subset).
    fn registering(&self, w: &World, epoch: u64) -> Vec<usize> {
        let f = &w.sc.faults;
        if f.partial_registration <= 0.0 {
            return (0..w.parties.len()).collect();
        }
        let mut r = Rng::for_run(w.sc.seed ^ 0x5eed, "registering", w.sc.run * 1000 + epoch);
        let mut out: Vec<usize> = (0..w.parties.len()).filter(|_| !r.chance(f.partial_registration)).collect();
        if out.is_empty() {
            out.push(r.index(w.parties.len()));
        }
        out
    }

    fn id(&mut self) -> u32 {
        self.next_id += 1;
        self.next_id
    }

    /// Driver that continues a history replayed from a recorded prefix.
    pub fn continuation(sc: &Scenario, salt: u64) -> Driver {
        let mut d = Driver::new(sc);
        d.rng = Rng::for_run(sc.seed ^ salt, &format!("continuation-{}", sc.property), sc.run);
        d.next_id = 500_000;
        d.epochs_done = sc.epochs; // no further epoch changes before quiescence
        d
    }

    /// C20 bootstrap with real signer nodes: two epochs of registrations, genesis, next epoch.
    pub fn bootstrap_c20(&mut self, sc: &Scenario) -> Vec<Event> {
        use crate::signer::LinkPolicy;
        let tick = |p: usize| Event::SignerTick { party: p, policy: LinkPolicy::default() };
        let mut ev = vec![Event::Tick, Event::Tick];
        for round in 0..2 {
            let mut order: Vec<usize> = (0..sc.n_parties).collect();
            self.rng.shuffle(&mut order);
            for _ in 0..4 {
                for p in &order {
                    ev.push(tick(*p));
                }
            }
            if round == 1 {
                ev.push(Event::Genesis);
            }
            ev.extend([Event::Epoch { by: 1 }, Event::SyncView]);
            for p in 0..sc.n_parties {
                ev.push(Event::SignerSyncView { party: p });
            }
            ev.extend([Event::Tick, Event::Tick]);
        }
        ev
    }

    /// C20 steady state: the aggregator and the real signer nodes tick in a seeded order, under
    /// seeded link policies.
    pub fn next_c20(&mut self, w: &World) -> Event {
        use crate::signer::LinkPolicy;
        self.since_epoch += 1;
        let f = &w.sc.faults;
        let n = w.signers.len();
        let rng = &mut self.rng;
        let lagging: Vec<usize> = (0..n).filter(|p| !w.signer_view_is_synced(*p)).collect();
        let mut choices: Vec<(u32, u8)> = vec![(30, 0), (5, 1), (45, 2)];
        if !w.view_is_synced() {
            choices.push((if f.lag > 0.0 { (12.0 * (1.0 - f.lag)) as u32 + 2 } else { 1000 }, 3));
        }
        if !lagging.is_empty() {
            choices.push((if f.lag > 0.0 { (14.0 * (1.0 - f.lag)) as u32 + 2 } else { 1000 }, 4));
        }
        let rec = w.epoch + 1;
        let all_registered = (0..n).all(|p| {
            w.link.calls.lock().unwrap().iter().any(|c| c.party == p && c.kind == "register-signer" && c.status == Some(201) && c.body.contains(&format!("\"epoch\":{rec},")))
        });
        let fault_free = !f.any();
        let epoch_certified = !fault_free || w.db().map(|db| db.certificates().iter().any(|c| !c.is_genesis && c.epoch == w.epoch)).unwrap_or(false);
        if self.since_epoch >= self.epoch_len && self.epochs_done < w.sc.epochs && ((all_registered && epoch_certified) || (!fault_free && self.since_epoch >= 3 * self.epoch_len)) {
            choices.push((25, 5));
        }
        if w.sc.entity_types.iter().any(|t| t == "CDB" || t == "CTX" || t == "CBTX") {
            choices.push((3, 6));
        }
        let w100 = |p: f64| (p * 100.0).round() as u32;
        if f.restart > 0.0 {
            choices.push((w100(f.restart), 7));
            choices.push((w100(f.restart) * 2, 8));
        }
        if f.reconfig > 0.0 {
            // the first re-configuration comes early (its effect shows two epochs later)
            let boost = if w.counters.contains_key("fault_restart_with_other_protocol_parameters") { 1 } else { 10 };
            choices.push((w100(f.reconfig) * boost, 9));
        }
        let weights: Vec<u32> = choices.iter().map(|c| c.0.max(1)).collect();
        match choices[rng.weighted(&weights)].1 {
            9 => reconfigure_event(rng, w),
            0 => Event::Tick,
            1 => Event::Background { polls: 4 },
            2 => {
                let party = rng.index(n);
                let mut policy = LinkPolicy::default();
                if f.chain_down > 0.0 && rng.chance(f.chain_down * 4.0) {
                    policy.unreachable = true;
                }
                if f.stale_delivery > 0.0 && rng.chance(f.stale_delivery) {
                    policy.stale_epoch_settings = rng.range(1, 2);
                }
                if f.drop > 0.0 && rng.chance(f.drop) {
                    policy.registration = rng.range(1, 2) as u8;
                }
                if f.dup > 0.0 && rng.chance(f.dup) {
                    policy.signature = rng.range(1, 3) as u8;
                }
                Event::SignerTick { party, policy }
            }
            3 => {
                if f.mid_cycle > 0.0 && rng.chance(f.mid_cycle) {
                    Event::MidCycleSync { reads: rng.below(14) as u32 }
                } else {
                    Event::SyncView
                }
            }
            4 => {
                let party = *rng.pick(&lagging);
                if f.mid_cycle > 0.0 && rng.chance(f.mid_cycle) {
                    Event::SignerMidCycleSync { party, reads: rng.below(10) as u32 }
                } else {
                    Event::SignerSyncView { party }
                }
            }
            5 => {
                self.since_epoch = 0;
                self.epochs_done += 1;
                Event::Epoch { by: 1 }
            }
            6 => Event::Immutable,
            7 => Event::Restart,
            _ => Event::SignerRestart { party: rng.index(n) },
        }
    }

    pub fn next(&mut self, w: &World) -> Event {
        if !w.signers.is_empty() {
            return self.next_c20(w);
        }
        self.since_epoch += 1;
        let f = &w.sc.faults;
        // --- steady state
        let rec = w.epoch + 1;
        // a party (re)sends its registration until the aggregator acknowledged it, like the real
        // signer does on every cycle while unregistered
        let needs_registration = |p: &usize| -> bool {
            let acked = w.deliveries.iter().any(|d| d.status == 201 && matches!(&d.msg.kind, MsgKind::Registration { party, recording_epoch, .. } if party == p && *recording_epoch == rec));
            let in_flight = w.inflight.values().any(|m| matches!(&m.kind, MsgKind::Registration { party, recording_epoch, .. } if party == p && *recording_epoch == rec));
            !acked && !in_flight
        };
        let unsent: Vec<usize> = self.registering(w, w.epoch).into_iter().filter(needs_registration).collect();
        let om = w.current_open_message();
        let can_sign: Vec<usize> = match &om {
            Some(om) => (0..w.parties.len()).filter(|p| w.can_sign(*p, &om.entity)).collect(),
            None => vec![],
        };
        let inflight: Vec<u32> = w.inflight.keys().copied().collect();
        let lagging = !w.view_is_synced();
        let rng = &mut self.rng;

        let mut choices: Vec<(u32, u8)> = vec![]; // (weight, action code)
        choices.push((30, 0)); // tick
        choices.push((6, 1)); // background
        if !unsent.is_empty() {
            choices.push((if f.partial_registration > 0.0 { 8 } else { 25 }, 2));
        }
        if !can_sign.is_empty() {
            choices.push((30, 3));
        }
        if !inflight.is_empty() {
            choices.push((35, 4));
        }
        if lagging {
            choices.push((if f.lag > 0.0 { (12.0 * (1.0 - f.lag)) as u32 + 2 } else { 1000 }, 5));
        }
        // chain progress
        // without registration faults the chain only moves to the next epoch once every party that
        // intends to register has been acknowledged (a real epoch lasts five days)
        let registration_faults = f.partial_registration > 0.0 || f.drop > 0.0 || f.stale_delivery > 0.0;
        let fault_free = !f.any();
        let epoch_certified = !fault_free
            || w.db().map(|db| db.certificates().iter().any(|c| !c.is_genesis && c.epoch == w.epoch)).unwrap_or(false);
        if self.since_epoch >= self.epoch_len
            && self.epochs_done < w.sc.epochs
            && (registration_faults || unsent.is_empty())
            && (epoch_certified || self.since_epoch >= 6 * self.epoch_len)
        {
            choices.push((25, 6));
        }
        if w.sc.entity_types.iter().any(|t| t == "CDB" || t == "CTX" || t == "CBTX") {
            choices.push((3, 7));
        }
        let w100 = |p: f64| (p * 100.0).round() as u32;
        if f.restart > 0.0 {
            choices.push((w100(f.restart), 8));
        }
        if f.expire > 0.0 && om.is_some() {
            choices.push((w100(f.expire), 9));
        }
        if f.drop > 0.0 && !inflight.is_empty() {
            choices.push((w100(f.drop), 10));
        }
        if f.reregister > 0.0 && (0..w.parties.len()).any(|p| w.registered_sent.contains_key(&(p, rec))) {
            choices.push((w100(f.reregister), 11));
        }
        if f.early_sign > 0.0 && om.is_none() && w.sc.entity_types.iter().any(|t| t == "CDB") {
            choices.push((w100(f.early_sign), 12));
        }
        if f.adversary > 0.0 && (w.deliveries.iter().any(|d| matches!(d.msg.kind, MsgKind::Signature { .. })) || inflight.iter().any(|i| matches!(w.inflight[i].kind, MsgKind::Signature { .. }))) {
            choices.push((w100(f.adversary), 13));
        }
        if f.chain_down > 0.0 {
            choices.push((w100(f.chain_down), 14));
        }
        if f.reconfig > 0.0 {
            let boost = if w.counters.contains_key("fault_restart_with_other_protocol_parameters") { 1 } else { 10 };
            choices.push((w100(f.reconfig) * boost, 15));
        }
        if f.rotate_genesis > 0.0 && self.epochs_done >= 2 {
            choices.push((w100(f.rotate_genesis), 16));
        }
        let weights: Vec<u32> = choices.iter().map(|c| c.0.max(1)).collect();
        let action = choices[rng.weighted(&weights)].1;
        match action {
            15 => reconfigure_event(rng, w),
            16 => Event::RotateGenesisKey,
            0 => Event::Tick,
            1 => Event::Background { polls: rng.range(1, 8) as u32 },
            2 => {
                let party = *rng.pick(&unsent);
                self.next_id += 1;
                Event::Register { id: self.next_id, party, new_key: false }
            }
            3 => {
                let party = *rng.pick(&can_sign);
                self.next_id += 1;
                Event::Sign { id: self.next_id, party, early: false }
            }
            4 => {
                // deliver: mostly the oldest first, sometimes any (reordering)
                let id = if rng.chance(0.6) { inflight[0] } else { *rng.pick(&inflight) };
                let is_sig = matches!(w.inflight[&id].kind, MsgKind::Signature { .. });
                let keep = f.dup > 0.0 && rng.chance(f.dup);
                let damage = if is_sig && f.corrupt > 0.0 && rng.chance(f.corrupt) {
                    Some(match rng.below(if w.sc.property == "C02" { 10 } else { 5 }) {
                        5..=7 => Damage::SubsetIndexes(rng.next_u64()),
                        8..=9 => Damage::RepeatIndexes(rng.next_u64()),
                        0 => Damage::SigBit(rng.below(4096) as usize),
                        1 => Damage::DropIndex,
                        2 => Damage::AddIndex(rng.below(w.sc.m + 2)),
                        3 => Damage::Truncate(rng.below(4096) as usize),
                        _ => Damage::BodyBit(rng.below(65536) as usize),
                    })
                } else {
                    None
                };
                // stale delivery: hold the message back instead (it stays in flight)
                if f.stale_delivery > 0.0 && rng.chance(f.stale_delivery) {
                    return Event::Tick;
                }
                if is_sig && f.dmq > 0.0 && rng.chance(f.dmq) {
                    let sigs: Vec<u32> = inflight.iter().copied().filter(|i| matches!(w.inflight[i].kind, MsgKind::Signature { .. })).collect();
                    if sigs.len() >= 2 && rng.chance(0.4) {
                        let mut ids = sigs.clone();
                        rng.shuffle(&mut ids);
                        ids.truncate(2 + rng.index(3));
                        let junk_at = if rng.chance(0.5) { (0..1 + rng.index(2)).map(|_| rng.index(ids.len() + 1)).collect() } else { vec![] };
                        return Event::DeliverDmqBatch { ids, junk_at };
                    }
                    return Event::DeliverDmq { id, keep };
                }
                Event::Deliver { id, keep, damage }
            }
            5 => {
                if f.mid_cycle > 0.0 && rng.chance(f.mid_cycle) {
                    Event::MidCycleSync { reads: rng.below(14) as u32 }
                } else {
                    Event::SyncView
                }
            }
            6 => {
                self.since_epoch = 0;
                self.epochs_done += 1;
                let by = if f.epoch_jump > 0.0 && rng.chance(f.epoch_jump) { rng.range(2, 3) } else { 1 };
                Event::Epoch { by }
            }
            7 => Event::Immutable,
            8 => Event::Restart,
            9 => Event::Expire,
            10 => Event::Drop { id: *rng.pick(&inflight) },
            11 => {
                let sent: Vec<usize> = (0..w.parties.len()).filter(|p| w.registered_sent.contains_key(&(*p, rec))).collect();
                let party = *rng.pick(&sent);
                self.next_id += 1;
                Event::Register { id: self.next_id, party, new_key: w.sc.property != "C06" && rng.chance(0.5) }
            }
            12 => {
                let party = rng.index(w.parties.len());
                self.next_id += 1;
                Event::Sign { id: self.next_id, party, early: true }
            }
            13 => {
                let mut sources: Vec<u32> = inflight.iter().copied().filter(|i| matches!(w.inflight[i].kind, MsgKind::Signature { forged: None, .. })).collect();
                sources.extend(w.deliveries.iter().rev().take(12).filter(|d| matches!(d.msg.kind, MsgKind::Signature { forged: None, .. })).map(|d| d.msg.id));
                if om.is_some() && rng.chance(0.2) {
                    self.next_id += 1;
                    return Event::SignWithNextKey { id: self.next_id, party: rng.index(w.parties.len()) };
                }
                if sources.is_empty() {
                    return Event::Tick;
                }
                let from = *rng.pick(&sources);
                let kind = match rng.below(10) {
                    0..=5 => ForgeKind::CopyUnderName,
                    6..=7 => ForgeKind::CopyUnderNameSubset,
                    _ => ForgeKind::CopyUnderUnknownName,
                };
                self.next_id += 1;
                Event::Forge { id: self.next_id, from, kind, as_party: rng.index(w.parties.len()) }
            }
            14 => Event::ChainDown { down: !w.agg_view.lock().unwrap().down },
            _ => Event::Tick,
        }
    }

}

/// Quiescence script (bounded liveness): faults have stopped. Three phases: the current epoch,
/// then twice "every beacon dimension advances" (immutable +1, epoch +1). In each phase everything
/// outstanding is delivered, views are synced, every party registers and signs whatever is open,
/// the aggregator ticks and its background tasks run. A `CheckLiveness` marker ends each phase.
pub struct Quiescer {
    phase: u8,
    ticks: usize,
    quiet_ticks: usize,
    limit: usize,
    next_id: u32,
    sub: u8,
    done: bool,
    /// (what, party) attempted since the last tick: an attempt that is not enabled changes
    /// nothing and must not be repeated forever
    tried: std::collections::BTreeSet<(u8, usize)>,
}

impl Quiescer {
    pub fn new(sc: &Scenario) -> Quiescer {
        Quiescer {
            phase: 0,
            ticks: 0,
            quiet_ticks: 0,
            limit: 4 * (sc.entity_types.len() + 3),
            next_id: 1_000_000,
            sub: 0,
            done: false,
            tried: Default::default(),
        }
    }

    fn id(&mut self) -> u32 {
        self.next_id += 1;
        self.next_id
    }

    pub fn next(&mut self, w: &World) -> Option<Event> {
        if self.done {
            return None;
        }
        if self.sub == 0 {
            if !w.agg.is_up() {
                return Some(Event::Restart);
            }
            if w.agg_view.lock().unwrap().down {
                return Some(Event::ChainDown { down: false });
            }
            if !w.view_is_synced() {
                return Some(Event::SyncView);
            }
            if let Some(id) = w.inflight.keys().next().copied() {
                self.quiet_ticks = 0;
                return Some(Event::Deliver { id, keep: false, damage: None });
            }
            // the registration round is (re)opened by the state machine: let it tick first
            let rec = w.epoch + 1;
            if self.ticks >= 2 {
                let unacked = (0..w.parties.len()).find(|p| {
                    !self.tried.contains(&(0, *p))
                        && !w.deliveries.iter().any(|d| matches!(&d.msg.kind, MsgKind::Registration { party, recording_epoch, .. } if party == p && *recording_epoch == rec) && d.status == 201)
                        && w.quiescence_register_attempts.get(&(*p, rec)).copied().unwrap_or(0) < 4
                });
                if let Some(p) = unacked {
                    self.tried.insert((0, p));
                    self.quiet_ticks = 0;
                    let id = self.id();
                    return Some(Event::Register { id, party: p, new_key: false });
                }
                if let Some(om) = w.current_open_message()
                    && let Some(p) = (0..w.parties.len()).find(|p| !self.tried.contains(&(1, *p)) && w.can_sign(*p, &om.entity))
                {
                    self.tried.insert((1, p));
                    self.quiet_ticks = 0;
                    let id = self.id();
                    return Some(Event::Sign { id, party: p, early: false });
                }
            }
            if self.ticks < self.limit || (self.quiet_ticks < 5 && self.ticks < 4 * self.limit) {
                self.ticks += 1;
                self.quiet_ticks += 1;
                self.tried.clear();
                return Some(if self.ticks % 3 == 0 { Event::Background { polls: 4 } } else { Event::Tick });
            }
            self.sub = 1;
            return Some(Event::Background { polls: 4 });
        }
        match self.sub {
            1 => {
                self.sub = 2;
                Some(Event::CheckLiveness)
            }
            2 => {
                if self.phase >= 2 {
                    self.done = true;
                    return None;
                }
                self.sub = 3;
                Some(Event::Immutable)
            }
            _ => {
                self.sub = 0;
                self.phase += 1;
                self.ticks = 0;
                self.quiet_ticks = 0;
                Some(Event::Epoch { by: 1 })
            }
        }
    }
}

/// C20 quiescence: no link faults, views in sync, everybody ticks; three phases separated by
/// "immutable +1, epoch +1"; a `CheckLiveness` marker ends each phase.
pub struct QuiescerC20 {
    phase: u8,
    round: usize,
    cursor: usize,
    sub: u8,
    done: bool,
}

impl QuiescerC20 {
    pub fn new() -> QuiescerC20 {
        QuiescerC20 { phase: 0, round: 0, cursor: 0, sub: 0, done: false }
    }

    pub fn next(&mut self, w: &World) -> Option<Event> {
        use crate::signer::LinkPolicy;
        if self.done {
            return None;
        }
        let n = w.signers.len();
        if self.sub == 0 {
            if !w.agg.is_up() {
                return Some(Event::Restart);
            }
            if w.agg_view.lock().unwrap().down {
                return Some(Event::ChainDown { down: false });
            }
            if !w.view_is_synced() {
                return Some(Event::SyncView);
            }
            if let Some(p) = (0..n).find(|p| !w.signer_view_is_synced(*p)) {
                return Some(Event::SignerSyncView { party: p });
            }
            let rounds = 4 * (w.sc.entity_types.len() + 3);
            if self.round < rounds {
                // one round = aggregator tick, every signer ticks, (every third round) background
                let per_round = n + 2;
                let ev = match self.cursor {
                    0 => Event::Tick,
                    c if c <= n => Event::SignerTick { party: c - 1, policy: LinkPolicy::default() },
                    _ => {
                        if self.round % 3 == 2 {
                            Event::Background { polls: 4 }
                        } else {
                            Event::Tick
                        }
                    }
                };
                self.cursor += 1;
                if self.cursor >= per_round {
                    self.cursor = 0;
                    self.round += 1;
                }
                return Some(ev);
            }
            self.sub = 1;
            return Some(Event::Background { polls: 4 });
        }
        match self.sub {
            1 => {
                self.sub = 2;
                Some(Event::CheckLiveness)
            }
            2 => {
                if self.phase >= 2 {
                    self.done = true;
                    return None;
                }
                self.sub = 3;
                Some(Event::Immutable)
            }
            _ => {
                self.sub = 0;
                self.phase += 1;
                self.round = 0;
                self.cursor = 0;
                Some(Event::Epoch { by: 1 })
            }
        }
    }
}
