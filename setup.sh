#!/usr/bin/env bash
# Offline build of every registered engine from the files on disk (run once after a fresh restore).
set -eu
ROOT="$(cd "$(dirname "${BASH_SOURCE[0]}")" && pwd)"
export CARGO_NET_OFFLINE=true
TARGET="${VERIF_TARGET:-$ROOT/target}"
mkdir -p "$TARGET" "$ROOT/evidence" "$ROOT/replays"
for key in $(jq -r '.engines[].path' "$ROOT/MANIFEST.json"); do
  echo "== building $key"
  (cd "$ROOT/$key" && cargo build --profile sim --target-dir "$TARGET/$key")
done
echo "setup done"
