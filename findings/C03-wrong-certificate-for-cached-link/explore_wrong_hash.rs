//! C03 demonstration (m1): a certificate signed by a signer set that no honest certificate ever
//! vouched for must not be accepted, whatever the provider answers and whatever the verifier
//! cache already contains.
//!
//! Scenario (needs the `unstable` certificate verifier cache):
//! 1. the client verifies an honest chain once: the links of the honest certificates are cached;
//! 2. the provider then serves a forged certificate `T` (epoch N, adversarial signer set A1) linked
//!    to a forged certificate `X` (epoch N-1, adversarial signer set A2, its signed message
//!    announces A1) linked to `P'`: a copy of the honest first certificate `P` of epoch N-1 whose
//!    aggregate verification key was swapped for the one of A2 while its `hash` field was left
//!    untouched (so that it is the hash of a cached certificate).
//!
//! `X` -> `P'` is a link between two certificates of the same epoch, walked after the epoch
//! boundary was crossed (cached links allowed): `P'` is only acceptable if its content hashes to
//! its `hash` field.
use std::collections::HashMap;
use std::sync::{Arc, Mutex};

use async_trait::async_trait;
use chrono::TimeDelta;

use mithril_client::certificate_client::{
    CertificateAggregatorRequest, CertificateVerifier, MemoryCertificateVerifierCache,
    MithrilCertificateVerifier,
};
use mithril_client::feedback::FeedbackSender;
use mithril_client::{MithrilCertificate, MithrilCertificateListItem, MithrilResult};
use mithril_common::crypto_helper::ProtocolClerk;
use mithril_common::entities::{
    CardanoDbBeacon, Certificate, CertificateSignature, Epoch, ProtocolMessage,
    ProtocolMessagePartKey, SignedEntityType,
};
use mithril_common::test::builder::{
    CertificateChainBuilder, CertificateChainingMethod, MithrilFixture, MithrilFixtureBuilder,
};
use mithril_common::test::double::Dummy;
use mithril_common::{AggregateSignatureType, AncillaryProofInput};

/// An untrusted provider: answers a request for a hash with whatever certificate it was told to.
#[derive(Default)]
struct Provider {
    answers: Mutex<HashMap<String, Certificate>>,
}

impl Provider {
    fn serve(&self, requested_hash: &str, certificate: &Certificate) {
        self.answers
            .lock()
            .unwrap()
            .insert(requested_hash.to_string(), certificate.clone());
    }
}

#[async_trait]
impl CertificateAggregatorRequest for Provider {
    async fn list_latest(&self) -> MithrilResult<Vec<MithrilCertificateListItem>> {
        Ok(vec![])
    }

    async fn get_by_hash(&self, hash: &str) -> MithrilResult<Option<MithrilCertificate>> {
        let certificate = self.answers.lock().unwrap().get(hash).cloned();
        certificate.map(|c| c.try_into()).transpose()
    }
}

/// Build a certificate that is fully consistent on its own (hash, signed message, epoch, valid
/// multi-signature under its own aggregate verification key and parameters) signed by `signers`,
/// whose signed message announces `next_signers` for the following epoch.
fn sign_certificate(
    template: &Certificate,
    epoch: Epoch,
    signers: &MithrilFixture,
    next_signers: &MithrilFixture,
    previous_hash: &str,
) -> Certificate {
    let mut protocol_message = ProtocolMessage::new();
    protocol_message.set_message_part(
        ProtocolMessagePartKey::SnapshotDigest,
        format!("forged-digest-{epoch}"),
    );
    protocol_message.set_message_part(
        ProtocolMessagePartKey::NextAggregateVerificationKey,
        next_signers.compute_and_encode_concatenation_aggregate_verification_key(),
    );
    protocol_message.set_message_part(
        ProtocolMessagePartKey::NextProtocolParameters,
        next_signers.protocol_parameters().compute_hash(),
    );
    protocol_message.set_message_part(ProtocolMessagePartKey::CurrentEpoch, epoch.to_string());
    let signed_message = protocol_message.compute_hash();

    let signers_fixture = signers.signers_fixture();
    let single_signatures = signers_fixture
        .iter()
        .filter_map(|s| s.protocol_signer.sign(signed_message.as_bytes()))
        .collect::<Vec<_>>();
    let clerk = ProtocolClerk::new_clerk_from_signer(&signers_fixture[0].protocol_signer);
    let (multi_signature, _) = clerk
        .aggregate_signatures_with_type(
            &single_signatures,
            signed_message.as_bytes(),
            AggregateSignatureType::default(),
            AncillaryProofInput::dummy(),
        )
        .expect("the adversarial signer set should reach the quorum on its own message");

    let mut certificate = template.clone();
    certificate.epoch = epoch;
    certificate.previous_hash = previous_hash.to_string();
    certificate.metadata.protocol_parameters = signers.protocol_parameters();
    certificate.metadata.signers = signers.stake_distribution_parties();
    certificate.protocol_message = protocol_message;
    certificate.signed_message = signed_message;
    certificate.aggregate_verification_key =
        signers.compute_concatenation_aggregate_verification_key();
    certificate.signature = CertificateSignature::MultiSignature(
        SignedEntityType::CardanoDatabase(CardanoDbBeacon::new(*epoch, 999)),
        multi_signature.into(),
    );
    certificate.hash = certificate.try_compute_hash().unwrap();

    certificate
}

fn build_verifier(
    provider: Arc<Provider>,
    genesis_verification_key: &str,
    cache: Arc<MemoryCertificateVerifierCache>,
) -> MithrilCertificateVerifier {
    MithrilCertificateVerifier::new(
        provider,
        genesis_verification_key,
        FeedbackSender::new(&[]),
        Some(cache),
        slog::Logger::root(slog::Discard, slog::o!()),
    )
    .unwrap()
}


#[tokio::test]
async fn explore_wrong_hash_served_after_rejected_call() {
    let chain = CertificateChainBuilder::new()
        .with_total_certificates(7)
        .with_certificates_per_epoch(2)
        .with_certificate_chaining_method(CertificateChainingMethod::ToMasterCertificate)
        .build();
    let genesis_verification_key: String =
        chain.genesis_verifier.to_ed25519_verification_key().try_into().unwrap();
    let honest_latest = chain.latest_certificate().clone();
    let e4 = honest_latest.epoch;
    let e3 = e4.previous().unwrap();
    let e2 = e3.previous().unwrap();
    let honest_master_e2 = chain.certificates_chained.iter().rev().find(|c| c.epoch == e2).unwrap().clone();

    let provider = Arc::new(Provider::default());
    for certificate in chain.certificates_chained.iter() {
        provider.serve(&certificate.hash, certificate);
    }
    let cache = Arc::new(MemoryCertificateVerifierCache::new(TimeDelta::hours(1)));
    let verifier = build_verifier(provider.clone(), &genesis_verification_key, cache.clone());

    let pp = honest_latest.metadata.protocol_parameters.clone();
    let mk = |seed: u8| MithrilFixtureBuilder::default().with_signers(4).with_protocol_parameters(pp.clone()).with_party_id_seed([seed; 32]).build();
    let (a1, a2, a3) = (mk(0xA1), mk(0xA2), mk(0xA3));
    let q = sign_certificate(&honest_latest, e2, &a3, &a2, "nonexistent");
    let tq = sign_certificate(&honest_latest, e3, &a2, &a1, &q.hash);
    let u = sign_certificate(&honest_latest, e4, &a1, &a1, &tq.hash);
    provider.serve(&u.hash, &u);
    provider.serve(&tq.hash, &tq);
    provider.serve(&q.hash, &q);

    let first = verifier.verify_chain(&u.clone().try_into().unwrap()).await;
    println!("first call: {:?}", first.as_ref().map_err(|e| format!("{e:#}")));
    assert!(first.is_err());

    provider.serve(&q.hash, &honest_master_e2);
    let second = verifier.verify_chain(&u.clone().try_into().unwrap()).await;
    println!("second call: {:?}", second.as_ref().map_err(|e| format!("{e:#}")));
    assert!(second.is_err(), "PRE-EXISTING HOLE: forged certificate accepted on second call");
}
